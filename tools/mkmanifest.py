#!/usr/bin/env python3
"""Regenerates /verif/MANIFEST.json from checks/<ID>.json (the "claim" object of each check) so that the manifest is always schema-valid and not_applicable always
lists every property that is not claimed."""
import json, os, sys
here = os.path.dirname(os.path.abspath(__file__))
root = os.path.dirname(here)
import glob
claims = {}
ready = set(open(os.path.join(root, "checks", "READY")).read().split())
for f in sorted(glob.glob(os.path.join(root, "checks", "*.json"))):
    c = json.load(open(f))
    # only checks the coordinator has accepted (listed in checks/READY) are claimed
    if "claim" in c and os.path.basename(f)[:-5] in ready:
        claims[os.path.basename(f)[:-5]] = c["claim"]
props = [json.loads(l) for l in open(os.path.join(root, "properties.jsonl"))]
checks, na = [], []
for p in props:
    pid = p["id"]
    c = claims.get(pid)
    if not c or c.get("unclaimed"):
        na.append({"property_id": pid, "reason": (c or {}).get("reason", "no check built yet; the plan for it is in DESIGN.md section 2 (model checking applies, the harness is not written)")})
        continue
    checks.append({
        "property_id": pid,
        "quick_cmd": f"bin/vcheck {pid} quick",
        "thorough_cmd": f"bin/vcheck {pid} thorough",
        "evidence_file": f"/verif/evidence/{pid}.json",
        "replay_cmd_template": f"bin/vcheck {pid} --replay {{path}}",
        "engine": c["engine"],
        "level_claimed": {"category": c["level"], "text": c["text"], "design_ref": f"DESIGN.md section 2, {pid}"},
        "level_note": c["note"],
        "technique": c["technique"],
    })
m = {
    "version": 1,
    "setup_cmd": "cd /verif && go build -o bin/vcheck ./cmd/vcheck && bin/vcheck --prebuild",
    "hooks": {
        "guard": "verif",
        "enable": "no hook is committed to tucats/ego: bin/vcheck weaves instrumentation from the current /repo working tree at check time and injects it with `go build -tags verif -overlay <generated overlay>` (shim imports, injected verif_export.go files tagged `verif`, virtual harness packages under internal/verifharness)",
        "baseline_off_cmd": "cd /repo && GOFLAGS=-mod=mod GOPROXY=off go test -vet=off -count=1 ./internal/util/javascript/... ./tools/langlint/...",
        "source_commits": [],
        "add_only": True,
    },
    "engines": [
        {"name": "E-enum", "path": "/verif/rt/enum", "kind_free_text": "bounded-exhaustive input/program enumeration against a reference implementation or reference model", "serves_properties": sorted(k for k, v in claims.items() if v.get("engine") == "E-enum" and not v.get("unclaimed"))},
        {"name": "E-seq", "path": "/verif/rt/seqx", "kind_free_text": "explicit-state breadth-first search over operation histories of the real code (fresh instance + replay), checked step by step against a Go reference model, states deduplicated on a canonical dump", "serves_properties": sorted(k for k, v in claims.items() if v.get("engine") == "E-seq" and not v.get("unclaimed"))},
        {"name": "E-sched", "path": "/verif/rt/vsched", "kind_free_text": "cooperative controlled scheduler over woven sync operations + preemption-bounded stateless DFS of all interleavings", "serves_properties": sorted(k for k, v in claims.items() if v.get("engine") == "E-sched" and not v.get("unclaimed"))},
        {"name": "E-fault", "path": "/verif/rt/vos", "kind_free_text": "crash/fault-point enumeration over a numbered environment-operation log", "serves_properties": sorted(k for k, v in claims.items() if v.get("engine") == "E-fault" and not v.get("unclaimed"))},
    ],
    "checks": checks,
    "notes": "All checks are bounded-exhaustive explorations of the real code built from /repo's working tree (see DESIGN.md). exit 2 = harness/build problem, never a verdict.",
    "not_applicable": na,
}
json.dump(m, open(os.path.join(root, "MANIFEST.json"), "w"), indent=1)
print(f"claimed {len(checks)}  unclaimed {len(na)}")
